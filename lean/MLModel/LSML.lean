import MLModel.Vec
/-!
# LSML (C12) — lsml.py `_BaseLSML._fit`: objective, gradient, acceptance loop

`inv`, `slogdet` and `eigh` are external: the objective takes `logdet M`, the gradient takes `M⁻¹`,
the loop takes the list of candidate metrics each step generates.  A Gauss–Jordan routine is provided
for the Float twin only (its output is the external value the real code gets from LAPACK).
-/
namespace ML
variable {K : Type}

section
variable [ScalarT K]

/-- weighted squared-hinge residual of the sqrt-distance comparisons `d(a,b) ≤ d(c,d)` (`_comparison_loss`) -/
def lsmlComparisonLoss {d} (M : Mat K d d) (quads : List (Vec K d × Vec K d × K)) : K :=
  quads.foldl (fun acc (vab, vcd, w) =>
    let dab := quadForm M vab
    let dcd := quadForm M vcd
    if dcd < dab then acc + w * ((ScalarT.sqrt dab - ScalarT.sqrt dcd) * (ScalarT.sqrt dab - ScalarT.sqrt dcd)) else acc) 0

/-- `_total_loss`: comparison loss + `tr(M · M₀⁻¹) − logdet M` -/
def lsmlLoss {d} (M priorInv : Mat K d d) (logdetM : K) (quads : List (Vec K d × Vec K d × K)) : K :=
  lsmlComparisonLoss M quads + (frob M priorInv - logdetM)

/-- `_gradient`: `M₀⁻¹ − M⁻¹ + Σ_violated w_i[(1 − √(d_cd/d_ab)) v_ab v_abᵀ + (1 − √(d_ab/d_cd)) v_cd v_cdᵀ]`; the second
summand is left out when `d_cd = 0` (`grad_cd = … if dcd > 0 else 0.`: a comparison whose second pair is one point) -/
def lsmlGradient {d} (M priorInv Minv : Mat K d d) (quads : List (Vec K d × Vec K d × K)) : Mat K d d :=
  fun a b =>
    quads.foldl (fun acc (vab, vcd, w) =>
      let dab := quadForm M vab
      let dcd := quadForm M vcd
      if dcd < dab then
        acc + w * ((1 - ScalarT.sqrt (dcd / dab)) * (vab a * vab b) +
          (if 0 < dcd then (1 - ScalarT.sqrt (dab / dcd)) * (vcd a * vcd b) else 0))
      else acc) (priorInv a b - Minv a b)

/-- eigenvalue flooring: `V · max(w, 1e-8) · Vᵀ` -/
def lsmlFloor {d} (V : Mat K d d) (w : Vec K d) : Mat K d d :=
  fun a b => vsum fun i => V a i * smax (w i) (lit 1 100000000) * V b i
end

/-! ## acceptance loop (any candidate generator) -/

structure LsmlState (α K : Type) where
  M : α
  sBest : K

section
variable {α : Type} [Scalar K]

/-- scan the candidates of one iteration: keep the one with the lowest loss if it strictly improves on
`s_best` (lsml.py:61-70) -/
def lsmlScan (loss : α → K) : List α → K → Option α → K × Option α
  | [], sBest, best => (sBest, best)
  | c :: cs, sBest, best =>
    if loss c < sBest then lsmlScan loss cs (loss c) (some c) else lsmlScan loss cs sBest best

/-- the outer loop: stop when the gradient norm is below `tol` or no candidate improves;
returns the final state and `n_iter_` -/
def lsmlLoop (loss : α → K) (gradNorm : α → K) (cands : α → List α) (tol : K) :
    Nat → Nat → LsmlState α K → LsmlState α K × Nat
  | 0, it, s => (s, it)
  | fuel+1, it, s =>
    if gradNorm s.M < tol then (s, it + 1) else
    match lsmlScan loss (cands s.M) s.sBest none with
    | (_, none) => (s, it + 1)
    | (sb, some m) => lsmlLoop loss gradNorm cands tol fuel (it + 1) { M := m, sBest := sb }

/-- weights are normalised to sum 1 (`w /= w.sum()`) -/
def normalizeWeights (w : List K) : List K := let s := w.foldl (· + ·) 0; w.map (· / s)
end

/-! ## Gauss–Jordan (Float twin only): inverse and log-determinant of an SPD matrix -/
section
variable [ScalarT K] [Inhabited K]

def gaussJordan (d : Nat) (M : Array (Array K)) : Array (Array K) × K := Id.run do
  let mut a : Array (Array K) := (Array.range d).map fun i =>
    ((M.getD i #[]) ++ (Array.range d).map fun j => if i = j then (1 : K) else 0)
  let mut logdet : K := 0
  for k in [0:d] do
    let rowk := a.getD k #[]
    let piv := rowk.getD k 1
    logdet := logdet + ScalarT.log piv
    let rk := rowk.map (· / piv)
    a := a.set! k rk
    for i in [0:d] do
      if i ≠ k then
        let ri := a.getD i #[]
        let f := ri.getD k 0
        a := a.set! i ((ri.zip rk).map fun (x, y) => x - f * y)
  return (a.map fun r => r.extract d (2 * d), logdet)
end

end ML
