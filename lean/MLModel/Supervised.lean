import MLModel.Constraints
/-!
# Supervised variants = base learner on label-derived constraints (C08)

The wiring read off the six `*_Supervised.fit` methods: which `Constraints` generator is called with
which arguments, and how tuples are formed from `X`.  The base (weakly supervised) solver is an
arbitrary function.
-/
namespace ML

inductive SupKind where
  | itml | mmc | sdml | lsml | rca | scml
deriving DecidableEq, Repr

structure SupConfig where
  nConstraints : Option Nat := none
  nChunks : Nat := 100
  chunkSize : Nat := 2
  kGenuine : Nat := 3
  kImpostor : Nat := 10
deriving Repr

inductive Generator where
  | pairs (n : Nat) (sameLength : Bool)       -- `positive_negative_pairs(n, same_length)`
  | chunks (nChunks size : Nat)               -- `chunks(n_chunks, chunk_size)`
  | knnTriplets (kGenuine kImpostor : Nat)    -- `generate_knntriplets(X, k_genuine, k_impostor)`
deriving DecidableEq, Repr

/-- `n_constraints` default: `20 * num_classes**2` (`num_classes = len(np.unique(y))`, the unknown
label counted like any other value, as the code does) -/
def defaultNConstraints (numClasses : Nat) : Nat := 20 * numClasses ^ 2

def resolveN (cfg : SupConfig) (numClasses : Nat) : Nat :=
  match cfg.nConstraints with
  | some n => n
  | none => defaultNConstraints numClasses

/-- which generator each supervised estimator calls, with which arguments -/
def wiringOf (k : SupKind) (cfg : SupConfig) (numClasses : Nat) : Generator :=
  match k with
  | .itml | .mmc | .sdml => .pairs (resolveN cfg numClasses) false
  | .lsml => .pairs (resolveN cfg numClasses) true
  | .rca => .chunks cfg.nChunks cfg.chunkSize
  | .scml => .knnTriplets cfg.kGenuine cfg.kImpostor

/-! ## the wiring as the translator reads it off the source -/

/-- one row of the generated table `MLGen.supWiring` (translate/supwiring.py) -/
structure SupWiringRow where
  cls : String
  generator : String          -- the `Constraints` method called (exactly one per `fit`)
  labelsArg : String          -- what `Constraints(·)` is built from
  prepared : Bool             -- the first statement is `X, y = self._prepare_inputs(X, y, …)`
  args : List String          -- the generator's arguments (positional, then keywords sorted), `random_state` / `same_length` split off
  sameLength : Bool
  seed : String               -- the `random_state=` argument ("" if none)
  defaultCoef : Nat           -- `n_constraints = coef * num_classes ** pow` when `None` (0, 0 when absent)
  defaultPow : Nat
  classesOf : String          -- which labels `num_classes` counts: "known" (`y[y >= 0]`), "all" (unlabeled markers too), "" when absent
  former : String             -- how the tuples are formed from `X`
  baseCall : String           -- the base fit that receives them
  baseArgs : List String
  baseKwargs : List String
  assigned : List String      -- every local name the method binds (a re-bound argument would show here)
deriving DecidableEq, Repr

/-- what the documentation of the six supervised estimators prescribes -/
def expectedSupWiring : List SupWiringRow :=
  let pairsRow (cls base : String) : SupWiringRow :=
    { cls := cls, generator := "positive_negative_pairs", labelsArg := "y", prepared := true, args := ["n_constraints"],
      sameLength := false, seed := "self.random_state", defaultCoef := 20, defaultPow := 2, classesOf := "known", former := "wrap_pairs",
      baseCall := base, baseArgs := ["self", "pairs", "y"], baseKwargs := [],
      assigned := ["X", "c", "n_constraints", "num_classes", "pairs", "pos_neg", "y"] }
  [ { pairsRow "ITML_Supervised" "_BaseITML._fit" with baseKwargs := ["bounds=bounds"] },
    pairsRow "MMC_Supervised" "_BaseMMC._fit",
    pairsRow "SDML_Supervised" "_BaseSDML._fit",
    { cls := "LSML_Supervised", generator := "positive_negative_pairs", labelsArg := "y", prepared := true, args := ["n_constraints"],
      sameLength := true, seed := "self.random_state", defaultCoef := 20, defaultPow := 2, classesOf := "known", former := "column_stack",
      baseCall := "_BaseLSML._fit", baseArgs := ["self", "X[np.column_stack(pos_neg)]"], baseKwargs := ["weights=self.weights"],
      assigned := ["X", "c", "n_constraints", "num_classes", "pos_neg", "y"] },
    { cls := "RCA_Supervised", generator := "chunks", labelsArg := "y", prepared := true,
      args := ["chunk_size=self.chunk_size", "n_chunks=self.n_chunks"], sameLength := false, seed := "self.random_state",
      defaultCoef := 0, defaultPow := 0, classesOf := "", former := "chunks", baseCall := "RCA.fit", baseArgs := ["self", "X", "chunks"],
      baseKwargs := [], assigned := ["X", "chunks", "y"] },
    { cls := "SCML_Supervised", generator := "generate_knntriplets", labelsArg := "y", prepared := true,
      args := ["X", "self.k_genuine", "self.k_impostor"], sameLength := false, seed := "",
      defaultCoef := 0, defaultPow := 0, classesOf := "", former := "index", baseCall := "self._fit", baseArgs := ["triplets", "basis", "n_basis"],
      baseKwargs := [], assigned := ["X", "basis", "constraints", "n_basis", "triplets", "y"] } ]

def SupKind.className : SupKind → String
  | .itml => "ITML_Supervised" | .mmc => "MMC_Supervised" | .sdml => "SDML_Supervised"
  | .lsml => "LSML_Supervised" | .rca => "RCA_Supervised" | .scml => "SCML_Supervised"

/-- the generator call a table row denotes, for a configuration and a number of classes -/
def rowGenerator (r : SupWiringRow) (cfg : SupConfig) (numClasses : Nat) : Option Generator :=
  if r.generator == "positive_negative_pairs" && r.args == ["n_constraints"] then
    some (.pairs (match cfg.nConstraints with
                  | some n => n
                  | none => r.defaultCoef * numClasses ^ r.defaultPow) r.sameLength)
  else if r.generator == "chunks" && r.args == ["chunk_size=self.chunk_size", "n_chunks=self.n_chunks"] then
    some (.chunks cfg.nChunks cfg.chunkSize)
  else if r.generator == "generate_knntriplets" && r.args == ["X", "self.k_genuine", "self.k_impostor"] then
    some (.knnTriplets cfg.kGenuine cfg.kImpostor)
  else none

def findSupRow (tbl : List SupWiringRow) (k : SupKind) : Option SupWiringRow := tbl.find? fun r => r.cls == k.className

/-- forming tuples from index tuples: `X[indices]` -/
def gather {α : Type} (X : Nat → α) (idx : List (List Nat)) : List (List α) := idx.map (·.map X)

/-- pairs + labels as `wrap_pairs` builds them: positives first (label +1), then negatives (−1) -/
def wrapPairs {α : Type} (X : Nat → α) (pos neg : List (Nat × Nat)) : List (List α × Int) :=
  (pos.map fun p => ([X p.1, X p.2], (1 : Int))) ++ (neg.map fun p => ([X p.1, X p.2], (-1 : Int)))

/-- quadruplets for LSML: `X[np.column_stack((a, b, c, d))]` -/
def wrapQuads {α : Type} (X : Nat → α) (pos neg : List (Nat × Nat)) : List (List α) :=
  (pos.zip neg).map fun (p, q) => [X p.1, X p.2, X q.1, X q.2]

/-- a supervised fit is the base solver applied to the formed tuples -/
def supervisedFit {α τ μ : Type} (form : (Nat → α) → τ) (base : τ → μ) (X : Nat → α) : μ := base (form X)

end ML
