import MLModel.Constraints
/-!
# Supervised variants = base learner on label-derived constraints (C08)

The wiring read off the six `*_Supervised.fit` methods: which `Constraints` generator is called with
which arguments, and how tuples are formed from `X`.  The base (weakly supervised) solver is an
arbitrary function.
-/
namespace ML

inductive SupKind where
  | itml | mmc | sdml | lsml | rca | scml
deriving DecidableEq, Repr

structure SupConfig where
  nConstraints : Option Nat := none
  nChunks : Nat := 100
  chunkSize : Nat := 2
  kGenuine : Nat := 3
  kImpostor : Nat := 10
deriving Repr

inductive Generator where
  | pairs (n : Nat) (sameLength : Bool)       -- `positive_negative_pairs(n, same_length)`
  | chunks (nChunks size : Nat)               -- `chunks(n_chunks, chunk_size)`
  | knnTriplets (kGenuine kImpostor : Nat)    -- `generate_knntriplets(X, k_genuine, k_impostor)`
deriving DecidableEq, Repr

/-- `n_constraints` default: `20 * num_classes**2` (`num_classes = len(np.unique(y))`, the unknown
label counted like any other value, as the code does) -/
def defaultNConstraints (numClasses : Nat) : Nat := 20 * numClasses ^ 2

def resolveN (cfg : SupConfig) (numClasses : Nat) : Nat :=
  match cfg.nConstraints with
  | some n => n
  | none => defaultNConstraints numClasses

/-- which generator each supervised estimator calls, with which arguments -/
def wiringOf (k : SupKind) (cfg : SupConfig) (numClasses : Nat) : Generator :=
  match k with
  | .itml | .mmc | .sdml => .pairs (resolveN cfg numClasses) false
  | .lsml => .pairs (resolveN cfg numClasses) true
  | .rca => .chunks cfg.nChunks cfg.chunkSize
  | .scml => .knnTriplets cfg.kGenuine cfg.kImpostor

/-- forming tuples from index tuples: `X[indices]` -/
def gather {α : Type} (X : Nat → α) (idx : List (List Nat)) : List (List α) := idx.map (·.map X)

/-- pairs + labels as `wrap_pairs` builds them: positives first (label +1), then negatives (−1) -/
def wrapPairs {α : Type} (X : Nat → α) (pos neg : List (Nat × Nat)) : List (List α × Int) :=
  (pos.map fun p => ([X p.1, X p.2], (1 : Int))) ++ (neg.map fun p => ([X p.1, X p.2], (-1 : Int)))

/-- quadruplets for LSML: `X[np.column_stack((a, b, c, d))]` -/
def wrapQuads {α : Type} (X : Nat → α) (pos neg : List (Nat × Nat)) : List (List α) :=
  (pos.zip neg).map fun (p, q) => [X p.1, X p.2, X q.1, X q.2]

/-- a supervised fit is the base solver applied to the formed tuples -/
def supervisedFit {α τ μ : Type} (form : (Nat → α) → τ) (base : τ → μ) (X : Nat → α) : μ := base (form X)

end ML
