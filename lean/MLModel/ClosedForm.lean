import MLModel.Vec
/-!
# Closed-form learners (C09): Covariance, RCA, LFDA scatter matrices

`covariance.py`, `rca.py`, `lfda.py` (the scatter construction and the embedding post-processing);
eigen-solvers are parameters.
-/
namespace ML
variable {K : Type}

section
variable [Scalar K]

def colMean {n d} (X : Mat K n d) : Vec K d := fun a => vsum (fun i => X i a) / Scalar.ofNat n

/-- `np.cov(X, rowvar=False)`: unbiased sample covariance -/
def cov {n d} (X : Mat K n d) : Mat K d d :=
  let m := (colMean X)
  fun a b => vsum (fun i => (X i a - m a) * (X i b - m b)) / Scalar.ofNat (n - 1)

/-- indicator as a scalar -/
def ind (p : Bool) : K := if p then 1 else 0

/-- number of points in chunk `c` -/
def chunkCount {n} (chunk : Fin n → Int) (c : Int) : Nat := (List.ofFn chunk).count c

/-- mean of the points of chunk `c` (rca.py `_chunk_mean_centering`) -/
def chunkMean {n d} (X : Mat K n d) (chunk : Fin n → Int) (c : Int) : Vec K d :=
  fun a => vsum (fun i => ind (chunk i == c) * X i a) / Scalar.ofNat (chunkCount chunk c)

/-- within-chunk covariance: points with chunk label −1 are skipped, each chunk is centred on its own
mean, `np.cov(..., bias=1)` (the overall mean of centred data is zero) -/
def innerCov {n d} (X : Mat K n d) (chunk : Fin n → Int) : Mat K d d :=
  let cnt := ((List.ofFn chunk).filter (· != -1)).length
  let means : Fin n → Vec K d := fun i => chunkMean X chunk (chunk i)
  fun a b => vsum (fun i => ind (chunk i != -1) * ((X i a - means i a) * (X i b - means i b))) / Scalar.ofNat cnt
end

section
variable [ScalarT K]

/-- `_inv_sqrtm` for `C = V diag(w) Vᵀ`: `(V / sqrt(w)) · Vᵀ` -/
def invSqrtm {d} (V : Mat K d d) (w : Vec K d) : Mat K d d :=
  fun a b => vsum fun i => V a i / ScalarT.sqrt (w i) * V b i

/-- squared Euclidean distance -/
def sqDist {d} (x y : Vec K d) : K := vsum fun a => (x a - y a) * (x a - y a)

/-- insertion into an ascending list / k-th smallest (what `np.partition(·, k)[k]` returns) -/
def insertAsc (x : K) : List K → List K
  | [] => [x]
  | y :: ys => if y < x then y :: insertAsc x ys else x :: y :: ys
def sortAsc (l : List K) : List K := l.foldr insertAsc []
def kthSmallest (l : List K) (k : Nat) : K := (sortAsc l).getD k 0

/-- LFDA's local scale: distance from `i` to its `kc`-th nearest point of its own class
(`kc = min(k, n_c − 1)`; index 0 is the point itself) -/
def lfdaSigma {n d} (X : Mat K n d) (cls : Fin n → Nat) (k : Nat) (i : Fin n) : K :=
  let same := (List.finRange n).filter fun j => cls j == cls i
  let kc := min k (same.length - 1)
  ScalarT.sqrt (kthSmallest (same.map fun j => sqDist (X j) (X i)) kc)

/-- affinity `exp(−‖xi−xj‖² / (σi σj))` within a class, 0 where the local scale product is 0 and
across classes -/
def lfdaAffinity {n d} (X : Mat K n d) (cls : Fin n → Nat) (sig : Vec K n) : Mat K n n :=
  fun i j =>
    if cls i == cls j then
      let s := sig i * sig j
      if s ≤ 0 ∧ 0 ≤ s then 0 else ScalarT.exp (-(sqDist (X i) (X j)) / s)
    else 0
end

section
variable [Scalar K]

/-- LFDA's accumulation of the within-class scatter, class by class (lfda.py:117-134):
`G_c = Xcᵀ diag(A.sum(0)) Xc − Xcᵀ A Xc`, `tSw += G_c / n_c` -/
def lfdaG {n d} (X : Mat K n d) (cls : Fin n → Nat) (A : Mat K n n) (c : Nat) : Mat K d d :=
  fun a b =>
    vsum (fun i => ind (cls i == c) * (vsum fun j => ind (cls j == c) * A j i) * X i a * X i b) -
    vsum (fun i => vsum fun j => ind (cls i == c) * ind (cls j == c) * (X i a * A i j * X j b))

def classSize {n} (cls : Fin n → Nat) (c : Nat) : Nat := ((List.finRange n).filter fun i => cls i == c).length

def lfdaSw {n d} (X : Mat K n d) (cls : Fin n → Nat) (A : Mat K n n) (C : Nat) : Mat K d d :=
  fun a b => vsum fun c : Fin C => lfdaG X cls A c.val a b / Scalar.ofNat (classSize cls c.val)

def sumOuter {n d} (X : Mat K n d) (sel : Fin n → Bool) : Mat K d d :=
  fun a b => vsum (fun i => ind (sel i) * X i a) * vsum (fun i => ind (sel i) * X i b)

/-- between-class scatter as the code accumulates it:
`Σ_c [G_c/n + (1 − n_c/n)·XcᵀXc + s_c s_cᵀ/n] − s sᵀ/n − tSw` -/
def lfdaSb {n d} (X : Mat K n d) (cls : Fin n → Nat) (A : Mat K n n) (C : Nat) : Mat K d d :=
  let nn : K := Scalar.ofNat n
  fun a b =>
    (vsum fun c : Fin C =>
      lfdaG X cls A c.val a b / nn +
      (1 - Scalar.ofNat (classSize cls c.val) / nn) * vsum (fun i => ind (cls i == c.val) * (X i a * X i b)) +
      sumOuter X (fun i => cls i == c.val) a b / nn) -
    sumOuter X (fun _ => true) a b / nn - lfdaSw X cls A C a b

/-- documented pairwise form `½ Σ_ij W_ij (x_i − x_j)(x_i − x_j)ᵀ` -/
def pairwiseScatter {n d} (X : Mat K n d) (W : Mat K n n) : Mat K d d :=
  fun a b => lit 1 2 * vsum fun i => vsum fun j => W i j * (X i a - X j a) * (X i b - X j b)

/-- documented weights -/
def lfdaWw {n} (cls : Fin n → Nat) (A : Mat K n n) : Mat K n n :=
  fun i j => if cls i == cls j then A i j / Scalar.ofNat (classSize cls (cls i)) else 0
def lfdaWb {n} (cls : Fin n → Nat) (A : Mat K n n) : Mat K n n :=
  fun i j => if cls i == cls j then A i j * (1 / Scalar.ofNat n - 1 / Scalar.ofNat (classSize cls (cls i)))
    else 1 / Scalar.ofNat n
end

section
variable [ScalarT K]
/-- `embedding_type`: rows of `components_` from the leading eigenpairs (`vecs[:, i]`, `vals[i]`) -/
def lfdaEmbedWeighted {k d} (vecs : Mat K d k) (vals : Vec K k) : Mat K k d :=
  fun i a => vecs a i * ScalarT.sqrt (vals i)
def lfdaEmbedPlain {k d} (vecs : Mat K d k) : Mat K k d := fun i a => vecs a i
end

end ML
