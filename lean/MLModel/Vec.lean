import MLModel.Scalar
/-!
# Vectors, matrices and finite sums

Vectors are functions `Fin n → K`; sums are left folds in index order (the order NumPy's
straight-line loops use; pairwise/BLAS summation differs by rounding only, which the
correspondence tolerances absorb).  `MLProps.Bridge.vsum_eq_sum` moves everything to `Finset.sum`.
-/
namespace ML
variable {K : Type} [Scalar K]

def vsum {n : Nat} (f : Fin n → K) : K := Fin.foldl n (fun a i => a + f i) 0

abbrev Vec (K : Type) (n : Nat) := Fin n → K
abbrev Mat (K : Type) (k d : Nat) := Fin k → Fin d → K

def vsub {n} (a b : Vec K n) : Vec K n := fun i => a i - b i
def vadd {n} (a b : Vec K n) : Vec K n := fun i => a i + b i
def vscale {n} (c : K) (a : Vec K n) : Vec K n := fun i => c * a i
def dot {n} (a b : Vec K n) : K := vsum fun i => a i * b i
def sumSq {n} (v : Vec K n) : K := vsum fun i => v i * v i

/-- `L · v` -/
def mulVec {k d} (L : Mat K k d) (v : Vec K d) : Vec K k := fun i => vsum fun j => L i j * v j
/-- `v · Lᵀ` with NumPy's operand order (`x.dot(L.T)`) -/
def vecMulT {k d} (v : Vec K d) (L : Mat K k d) : Vec K k := fun i => vsum fun j => v j * L i j
def matMul {a b c} (A : Mat K a b) (B : Mat K b c) : Mat K a c := fun i j => vsum fun l => A i l * B l j
def transpose {a b} (A : Mat K a b) : Mat K b a := fun i j => A j i
def outer {a b} (u : Vec K a) (v : Vec K b) : Mat K a b := fun i j => u i * v j
def madd {a b} (A B : Mat K a b) : Mat K a b := fun i j => A i j + B i j
def msub {a b} (A B : Mat K a b) : Mat K a b := fun i j => A i j - B i j
def mscale {a b} (c : K) (A : Mat K a b) : Mat K a b := fun i j => c * A i j
def ident {d} : Mat K d d := fun i j => if i = j then 1 else 0
def quadForm {d} (M : Mat K d d) (v : Vec K d) : K := vsum fun a => v a * vsum fun b => M a b * v b
def trace {d} (M : Mat K d d) : K := vsum fun i => M i i
/-- Frobenius inner product `Σ A_ij B_ij` -/
def frob {a b} (A B : Mat K a b) : K := vsum fun i => vsum fun j => A i j * B i j

/-- concrete storage used for loop-carried state and by the driver -/
def Vec.ofArray (a : Array K) (n : Nat) : Vec K n := fun i => a.getD i.val 0
def Mat.ofArray (a : Array K) (k d : Nat) : Mat K k d := fun i j => a.getD (i.val * d + j.val) 0
def Vec.toArray {n} (v : Vec K n) : Array K := Array.ofFn v
def Mat.toArray {k d} (M : Mat K k d) : Array K :=
  (Array.ofFn fun i : Fin k => Array.ofFn fun j : Fin d => M i j).flatten

/-- materialise a vector / matrix as data (evaluated once); `ofStore` reads it back.  A closure-returning
"memo" would be recompiled at full arity and recompute on every access, so loop-carried values and
anything reused are stored explicitly. -/
def Vec.store {n} (v : Vec K n) : Vector K n := Vector.ofFn v
def Vec.ofStore {n} (a : Vector K n) : Vec K n := fun i => a[i]
def Mat.store {k d} (M : Mat K k d) : Vector (Vector K d) k := Vector.ofFn fun i => Vector.ofFn fun j => M i j
def Mat.ofStore {k d} (a : Vector (Vector K d) k) : Mat K k d := fun i j => a[i][j]

end ML
