import MLModel.Distance
/-!
# Objectives of the gradient-based learners (C10): NCA, MLKR, LMNN

Documented objectives as plain sums over samples (the Float twin evaluates them in O(n²)/O(n²k));
the code's vectorised route (`logsumexp`, masked matrices) is modelled next to them, and LMNN's
acceptance loop is modelled with the loss/gradient machinery abstract.
-/
namespace ML
variable {K : Type}

section
variable [ScalarT K]

/-- squared distance between embedded points `‖L x_i − L x_j‖²` -/
def embSqDist {k d n} (L : Mat K k d) (X : Mat K n d) (i j : Fin n) : K :=
  sumSq (transform L (vsub (X i) (X j)))

/-- `scipy.special.logsumexp` over the entries `j ≠ i` (the diagonal is set to `+inf` before), with its
max-shift `m` made explicit: `m + log Σ_{j≠i} exp(−e_ij − m)` -/
def logSumExpOffDiag {n} (e : Mat K n n) (i : Fin n) (m : K) : K :=
  m + ScalarT.log (vsum fun j => if j = i then 0 else ScalarT.exp (-(e i j) - m))

/-- the shift scipy uses: the largest off-diagonal `−e_ij` of the row -/
def rowShift {n} (e : Mat K n n) (i : Fin n) : K :=
  ((List.finRange n).filter (· ≠ i)).foldl (fun acc j => match acc with
    | none => some (-(e i j))
    | some a => some (smax a (-(e i j)))) none |>.getD 0

/-- the code's route: `p_ij = exp(−d_ij − logsumexp_{l≠i}(−d_il))`, `p_ii = 0` -/
def softmaxCode {n} (e : Mat K n n) (i j : Fin n) : K :=
  if j = i then 0 else ScalarT.exp (-(e i j) - logSumExpOffDiag e i (rowShift e i))

/-- the documented softmax `exp(−d_ij) / Σ_{l≠i} exp(−d_il)` -/
def softmaxDoc {n} (e : Mat K n n) (i j : Fin n) : K :=
  if j = i then 0 else ScalarT.exp (-(e i j)) / vsum fun l => if l = i then 0 else ScalarT.exp (-(e i l))

/-- NCA objective (to be maximised): expected number of points whose stochastic nearest neighbour has
the same label, `Σ_i Σ_{j≠i, y_j = y_i} p_ij` -/
def ncaObjective {k d n} (L : Mat K k d) (X : Mat K n d) (y : Fin n → Int) : K :=
  let e : Mat K n n := fun i j => embSqDist L X i j
  vsum fun i => vsum fun j => if y i = y j then softmaxCode e i j else 0

/-- MLKR objective: leave-one-out kernel-regression squared error `Σ_i (ŷ_i − y_i)²` -/
def mlkrObjective {k d n} (L : Mat K k d) (X : Mat K n d) (y : Vec K n) : K :=
  let e : Mat K n n := fun i j => embSqDist L X i j
  vsum fun i =>
    let yhat := vsum fun j => softmaxCode e i j * y j
    (yhat - y i) * (yhat - y i)

/-- LMNN documented objective: `reg · Σ_i Σ_{j∈T_i} d_ij² + (1−reg) · Σ_i Σ_{j∈T_i} Σ_{l: y_l≠y_i} [1 + d_ij² − d_il²]_+` -/
def lmnnObjective {k d n} (L : Mat K k d) (X : Mat K n d) (y : Fin n → Int) (targets : Fin n → List (Fin n))
    (reg : K) : K :=
  let pull := vsum fun i => (targets i).foldl (fun acc j => acc + embSqDist L X i j) 0
  let push := vsum fun i => (targets i).foldl (fun acc j =>
      acc + vsum fun l => if y l = y i then 0 else smax 0 (1 + embSqDist L X i j - embSqDist L X i l)) 0
  reg * pull + (1 - reg) * push

/-! ## The gradients handed to the optimiser (nca.py `_loss_grad_lbfgs`, mlkr.py `_loss`) -/

/-- `W_sym = W + W.T; np.fill_diagonal(W_sym, -W.sum(axis=0))` -/
def symFillDiag {n} (W : Mat K n n) : Mat K n n :=
  fun i j => if i = j then -(vsum fun l => W l i) else W i j + W j i

/-- `c * (X_embedded.T.dot(S)).dot(X)` with `X_embedded = X.dot(L.T)` -/
def gradFromWeights {k d n} (c : K) (L : Mat K k d) (X : Mat K n d) (S : Mat K n n) : Mat K k d :=
  fun a b => c * vsum fun j => (vsum fun i => transform L (X i) a * S i j) * X j b

/-- NCA: `weighted_p_ij = masked_p_ij − p_ij · p` (`p` the row sums of the masked softmax) -/
def ncaWeights {k d n} (L : Mat K k d) (X : Mat K n d) (y : Fin n → Int) : Mat K n n :=
  let e : Mat K n n := fun i j => embSqDist L X i j
  fun i j =>
    let masked := if y i = y j then softmaxCode e i j else 0
    let p := vsum fun l => if y i = y l then softmaxCode e i l else 0
    masked - softmaxCode e i j * p

/-- the gradient NCA hands to L-BFGS (before the sign flip): `2 · X_embeddedᵀ · W_sym · X` -/
def ncaGradCode {k d n} (L : Mat K k d) (X : Mat K n d) (y : Fin n → Int) : Mat K k d :=
  gradFromWeights (Scalar.ofNat 2) L X (symFillDiag (ncaWeights L X y))

/-- MLKR: `W = softmax * ydiff[:, None] * (y − yhat[:, None])` -/
def mlkrWeights {k d n} (L : Mat K k d) (X : Mat K n d) (y : Vec K n) : Mat K n n :=
  let e : Mat K n n := fun i j => embSqDist L X i j
  fun i j =>
    let yhat := vsum fun l => softmaxCode e i l * y l
    softmaxCode e i j * (yhat - y i) * (y j - yhat)

/-- the gradient MLKR hands to L-BFGS: `4 · X_embeddedᵀ · W_sym · X` -/
def mlkrGradCode {k d n} (L : Mat K k d) (X : Mat K n d) (y : Vec K n) : Mat K k d :=
  gradFromWeights (Scalar.ofNat 4) L X (symFillDiag (mlkrWeights L X y))

/-- the line `L + t·D` through `L` in direction `D` -/
def lineAt {k d} (L D : Mat K k d) (t : K) : Mat K k d := fun a b => L a b + t * D a b

/-! ## LMNN: the value `_loss_grad` computes (lmnn.py:246-281) -/

/-- plain list sum -/
def lsum : List K → K
  | [] => 0
  | x :: xs => x + lsum xs

/-- `_sum_outer_products(X, a, b)` (weights folded into repetitions): `Σ_p (x_a − x_b)(x_a − x_b)ᵀ` -/
def sumOuterPairs {d n} (X : Mat K n d) (ps : List (Fin n × Fin n)) : Mat K d d :=
  fun a b => lsum (ps.map fun p => (X p.1 a - X p.2 a) * (X p.1 b - X p.2 b))

/-- the active push constraints among candidate triples `(i, j, l)` (`j` a target neighbour of `i`, `l` a
differently labelled point): `g0 < g1`, i.e. `d_il < 1 + d_ij` -/
def lmnnActive {k d n} (L : Mat K k d) (X : Mat K n d) (triples : List (Fin n × Fin n × Fin n)) :
    List (Fin n × Fin n × Fin n) :=
  triples.filter fun t => decide (embSqDist L X t.1 t.2.2 < 1 + embSqDist L X t.1 t.2.1)

/-- the objective value returned by `_loss_grad`:
`total_active·(1 − reg) + ⟨L·(dfG·reg + df·(1 − reg)), L⟩` with `dfG = Σ_{targets} C_ij` and
`df = Σ_{active} (C_ij − C_il)` -/
def lmnnCodeObjective {k d n} (L : Mat K k d) (X : Mat K n d) (targetPairs : List (Fin n × Fin n))
    (triples : List (Fin n × Fin n × Fin n)) (reg : K) : K × Nat :=
  let act := lmnnActive L X triples
  let dfG := sumOuterPairs X targetPairs
  let dfPlus := sumOuterPairs X (act.map fun t => (t.1, t.2.1))
  let dfMinus := sumOuterPairs X (act.map fun t => (t.1, t.2.2))
  let G : Mat K d d := fun a b => dfG a b * reg + (dfPlus a b - dfMinus a b) * (1 - reg)
  (Scalar.ofNat act.length * (1 - reg) + frob (matMul L G) L, act.length)

/-- the gradient `_loss_grad` returns: `2 · L · G` with the same `G` -/
def lmnnGradCode {k d n} (L : Mat K k d) (X : Mat K n d) (targetPairs : List (Fin n × Fin n))
    (triples : List (Fin n × Fin n × Fin n)) (reg : K) : Mat K k d :=
  let act := lmnnActive L X triples
  let dfG := sumOuterPairs X targetPairs
  let dfPlus := sumOuterPairs X (act.map fun t => (t.1, t.2.1))
  let dfMinus := sumOuterPairs X (act.map fun t => (t.1, t.2.2))
  let G : Mat K d d := fun a b => dfG a b * reg + (dfPlus a b - dfMinus a b) * (1 - reg)
  fun a b => Scalar.ofNat 2 * matMul L G a b

/-- the documented objective over the same candidate lists -/
def lmnnDocObjectiveL {k d n} (L : Mat K k d) (X : Mat K n d) (targetPairs : List (Fin n × Fin n))
    (triples : List (Fin n × Fin n × Fin n)) (reg : K) : K :=
  reg * lsum (targetPairs.map fun p => embSqDist L X p.1 p.2) +
  (1 - reg) * lsum (triples.map fun t => smax 0 (1 + embSqDist L X t.1 t.2.1 - embSqDist L X t.1 t.2.2))

/-- all (sample, target neighbour) pairs / all candidate triples (sample, target neighbour, differently
labelled point) of a target assignment -/
def allTargetPairs {n} (targets : Fin n → List (Fin n)) : List (Fin n × Fin n) :=
  (List.finRange n).flatMap fun i => (targets i).map fun j => (i, j)
def allTriples {n} (y : Fin n → Int) (targets : Fin n → List (Fin n)) : List (Fin n × Fin n × Fin n) :=
  (List.finRange n).flatMap fun i => (targets i).flatMap fun j =>
    ((List.finRange n).filter fun l => y l ≠ y i).map fun l => (i, j, l)
end

/-! ## LMNN acceptance loop (lmnn.py:201-243), loss/gradient abstract -/

structure LmnnState (α K : Type) where
  L : α
  obj : K
  rate : K

section
variable {α : Type} [Scalar K]

/-- halve the step until the objective does not increase (`while True: … if delta_obj > 0: learn_rate /= 2`) -/
def lmnnBacktrack (obj : α → K) (stepFrom : α → K → α) (L : α) (cur : K) : Nat → K → Option (α × K × K)
  | 0, _ => none                      -- (the code would loop forever; the model gives up)
  | fuel+1, rate =>
    let Ln := stepFrom L rate
    if cur < obj Ln then lmnnBacktrack obj stepFrom L cur fuel (rate / Scalar.ofNat 2)
    else some (Ln, obj Ln, rate)

/-- the main loop `for it in range(2, max_iter)`: `iters = max_iter − 2` accepted steps at most -/
def lmnnLoop (obj : α → K) (stepFrom : α → K → α) (btFuel : Nat) (minIter : Nat) (convTol : K) :
    Nat → Nat → LmnnState α K → LmnnState α K
  | 0, _, s => s
  | fuel+1, it, s =>
    match lmnnBacktrack obj stepFrom s.L s.obj btFuel s.rate with
    | none => s
    | some (Ln, on, rate) =>
      let s' : LmnnState α K := { L := Ln, obj := on, rate := rate * lit 101 100 }
      if minIter < it ∧ sabs (on - s.obj) < convTol then s'
      else lmnnLoop obj stepFrom btFuel minIter convTol fuel (it + 1) s'

/-- `fit`: number of loop iterations is `max_iter − 2` (iterations are numbered from 2) -/
def lmnnFit (obj : α → K) (stepFrom : α → K → α) (btFuel minIter : Nat) (convTol : K) (maxIter : Nat)
    (L0 : α) (rate0 : K) : LmnnState α K :=
  lmnnLoop obj stepFrom btFuel minIter convTol (maxIter - 2) 2 { L := L0, obj := obj L0, rate := rate0 }
end

/-! ## LMNN's `fit` loop instantiated with the code-level objective and gradient (loop-carried `L` as data) -/
section
variable [ScalarT K]

/-- `L_next = L - learn_rate * G` with `G = 2·L·(dfG·reg + df·(1 − reg))` -/
def lmnnStepCode {k d n} (X : Mat K n d) (targetPairs : List (Fin n × Fin n)) (triples : List (Fin n × Fin n × Fin n))
    (reg : K) (L : Vector (Vector K d) k) (rate : K) : Vector (Vector K d) k :=
  let G := (lmnnGradCode (Mat.ofStore L) X targetPairs triples reg).store
  Vector.ofFn fun a => Vector.ofFn fun b => L[a][b] - rate * G[a][b]

/-- the whole loop of `LMNN.fit` after initialisation: objective = what `_loss_grad` returns, step = a gradient step,
halving on increase, `×1.01` on acceptance, convergence test after `min_iter` -/
def lmnnFitCode {k d n} (X : Mat K n d) (targetPairs : List (Fin n × Fin n)) (triples : List (Fin n × Fin n × Fin n))
    (reg : K) (btFuel minIter : Nat) (convTol : K) (maxIter : Nat) (L0 : Vector (Vector K d) k) (rate0 : K) :
    LmnnState (Vector (Vector K d) k) K :=
  lmnnFit (fun L => (lmnnCodeObjective (Mat.ofStore L) X targetPairs triples reg).1)
    (lmnnStepCode X targetPairs triples reg) btFuel minIter convTol maxIter L0 rate0
end

end ML
