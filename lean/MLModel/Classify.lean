import MLModel.Vec
/-!
# Tuple classifiers (C04)

Decisions are functions of learned distances (base_metric.py: `_PairsClassifierMixin`,
`_TripletsClassifierMixin`, `_QuadrupletsClassifierMixin`).
-/
namespace ML
variable {K : Type} [Scalar K]

/-- `pair_score = -pair_distance`; pairs `decision_function` is the pair score -/
def decisionPair (d : K) : K := -d

/-- `2 * (-decision_function <= threshold_) - 1` -/
def predictPair (thr d : K) : Int := if -(decisionPair d) ≤ thr then 1 else -1

/-- `pair_score(a,b) - pair_score(a,c)` -/
def decisionTriplet (dab dac : K) : K := (-dab) - (-dac)

/-- `2 * (decision_function > 0) - 1` -/
def predictTriplet (dab dac : K) : Int := if 0 < decisionTriplet dab dac then 1 else -1

/-- `pair_score(a,b) - pair_score(c,d)` -/
def decisionQuad (dab dcd : K) : K := (-dab) - (-dcd)

def sign (x : K) : Int := if 0 < x then 1 else if x < 0 then -1 else 0

/-- `np.sign(decision_function)` -/
def predictQuad (dab dcd : K) : Int := sign (decisionQuad dab dcd)

/-- `2 * (condition) - 1` on a boolean array entry -/
def pmOne (b : Bool) : K := if b then 1 else -1

/-- `np.sign` -/
def signK (x : K) : K := if 0 < x then 1 else if x < 0 then -1 else 0

/-- `predict(...).mean() / 2 + 0.5` for predictions in {-1,+1} -/
def scoreFrac (preds : List Int) : K :=
  let pos := (preds.filter (· = 1)).length
  let neg := (preds.filter (· = -1)).length
  (Scalar.ofNat pos - Scalar.ofNat neg) / Scalar.ofNat preds.length / Scalar.ofNat 2 + lit 1 2

/-- Mann–Whitney statistic with half credit for ties: the contract assumed of `roc_auc_score` -/
def auc (scores : List K) (labels : List Bool) : K :=
  let sl := scores.zip labels
  let pos := (sl.filter (·.2)).map (·.1)
  let neg := (sl.filter (!·.2)).map (·.1)
  let wins : K := pos.foldl (fun acc p => neg.foldl (fun a q =>
      if q < p then a + 1 else if p < q then a else a + lit 1 2) acc) 0
  wins / (Scalar.ofNat pos.length * Scalar.ofNat neg.length)

/-! threshold state machine: which operation last wrote `threshold_` -/
inductive ThrOp (K : Type) where
  | fit (calibrated : K)          -- `fit` ends with `calibrate_threshold`
  | calibrate (t : K)
  | set (t : Option K)            -- `none`: value not convertible to float → `ValueError`, no write

def thrStep (s : Option K) : ThrOp K → Option K
  | .fit t => some t
  | .calibrate t => some t
  | .set (some t) => some t
  | .set none => s

def thrRun (h : List (ThrOp K)) : Option K := h.foldl thrStep none

end ML
