import MLModel.Vec
/-!
# The learned distance and its views (C01, C02)

A fitted Mahalanobis learner is abstracted to its `components_` matrix `L : k × d`
(any `k`, `d`; nothing is assumed about `L`).
-/
namespace ML
variable {K : Type} [ScalarT K]

/-- `MahalanobisMixin.transform` on one row: `x.dot(L.T)` (base_metric.py: transform) -/
def transform {k d} (L : Mat K k d) (x : Vec K d) : Vec K k := vecMulT x L

/-- `pair_distance` on one pair: `sqrt(sum(transform(x1 - x0)**2))` -/
def pairDistance {k d} (L : Mat K k d) (x0 x1 : Vec K d) : K :=
  ScalarT.sqrt (sumSq (transform L (vsub x1 x0)))

/-- `pair_score = -1 * pair_distance` -/
def pairScore {k d} (L : Mat K k d) (x0 x1 : Vec K d) : K := - pairDistance L x0 x1

/-- deprecated `score_pairs`: `pair_distance` plus a `FutureWarning` flag -/
def scorePairs {k d} (L : Mat K k d) (x0 x1 : Vec K d) : K × Bool := (pairDistance L x0 x1, true)

/-- the closure returned by `get_metric()`: `(u - v).dot(components_.T)`, dot with itself,
`sqrt` unless `squared` -/
def metricFun {k d} (L : Mat K k d) (u v : Vec K d) (squared : Bool) : K :=
  let td := vecMulT (vsub u v) L
  let dist := dot td td
  if squared then dist else ScalarT.sqrt dist

/-- `get_mahalanobis_matrix`: `components_.T.dot(components_)` -/
def mahalanobis {k d} (L : Mat K k d) : Mat K d d := fun a b => vsum fun i => L i a * L i b

/-- `sqrt((x-x')ᵀ M (x-x'))` -/
def mahalDistance {d} (M : Mat K d d) (x0 x1 : Vec K d) : K :=
  ScalarT.sqrt (quadForm M (vsub x1 x0))

/-- Euclidean distance between two embedded points -/
def euclid {k} (a b : Vec K k) : K := ScalarT.sqrt (sumSq (vsub b a))

end ML
