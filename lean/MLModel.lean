import MLModel.Scalar
import MLModel.Vec
import MLModel.Distance
import MLModel.Classify
import MLModel.Calibrate
import MLModel.Params
import MLModel.Shape
import MLModel.PSD
