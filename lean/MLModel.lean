import MLModel.Scalar
import MLModel.Vec
import MLModel.Distance
